#!/bin/bash
# usage: tools/run_mutant.sh <patch.diff> <PROP> [PROP...]   -- applies the patch to a scratch copy of /repo (outside
# /repo and /verif), optionally runs the baseline tests there (TESTS=1), runs the quick checks against it, removes the copy.
PATCH="$1"; shift
D=$(mktemp -d /tmp/mut_XXXXXX)
cp -r /repo/eqsig /repo/tests "$D"/ 2>/dev/null
cp /repo/setup.py /repo/setup.cfg /repo/pytest.ini /repo/conftest.py "$D"/ 2>/dev/null
( cd "$D" && git apply "$PATCH" ) || { echo "PATCH DOES NOT APPLY: $PATCH"; rm -rf "$D"; exit 3; }
if [ -n "$TESTS" ]; then ( cd "$D" && /venv/bin/python -m pytest -q -p no:cacheprovider --timeout=900 2>&1 | tail -1 ); fi
if [ -n "$DEMO" ]; then ( cd "$D" && /venv/bin/python "$DEMO" >/dev/null 2>&1; echo "demo exit=$?" ); fi
for P in "$@"; do
  OUT=$(cd /verif && EQSIG_REPO="$D" VERIF_OUT_DIR="$D/out" ./check "$P" ${TIER:+--tier $TIER} 2>&1); RC=$?
  echo "$(basename $(dirname $PATCH))/$(basename $PATCH) $P exit=$RC $(echo "$OUT" | grep -c '^VIOLATION') violation lines; clauses: $(echo "$OUT" | grep -E 'violated=[1-9]' | awk '{print $2}' | tr '\n' ' ')"
  [ -n "$VERBOSE" ] && echo "$OUT" | grep -E "violated clause" | head -5
done
rm -rf "$D"
